package main

// Effect facts of the read-only API (property C18), computed on the SSA form of /repo's packages.
//
// Roots: every exported method of a structure type (builders excluded) that takes no argument, or whose
// name is one of the read-only verbs / query verbs below, plus the package-level size lookups.  From the
// roots the static call graph is walked inside the module; for every write-like instruction reached one
// fact (function, kind, origin, detail) is emitted:
//
//	kind    Store | MapUpdate | append | copy | sort | extwrite | external-call | dynamic-call | Go | Send
//	origin  of the WRITTEN object (for external-call: of the most shared pointer-like argument), in terms
//	        of the ROOT call:  fresh (allocated during the call) | param | receiver | global | unknown
//	detail  last field selected on the way to the object ("Certificate.kind"), a global's name, the callee
//	        (sort, extwrite); for external-call the callee's package group (the first column is then
//	        "caller -> callee")
//
// Origins are a context-sensitive backward slice: every in-module callee is analysed once per vector of
// argument origins, so "receiver" always means "reachable from the value the API method was invoked on".
// Each SSA value has an origin `self` (where the memory it points to comes from) and, for containers the
// call allocated itself, `cont` (the most shared thing stored into them) — a local copy of a struct still
// aliases the receiver's slices.  Nothing is guessed: an instruction the slice cannot classify gets the
// origin "unknown", which the Lean side (Props/C18.lean, `allowed`) rejects.
import (
	"fmt"
	"go/token"
	"go/types"
	"os"
	"sort"
	"strings"

	"golang.org/x/tools/go/packages"
	"golang.org/x/tools/go/ssa"
	"golang.org/x/tools/go/ssa/ssautil"
)

// read-only verbs: roots even when they take parameters
var roVerbs = map[string]bool{"Bytes": true, "Data": true, "Serialize": true, "RawBytes": true, "Hash": true,
	"IdentHash": true, "Base32Address": true, "Base64": true, "Equals": true, "Equal": true, "Validate": true,
	"IsValid": true, "Verify": true, "VerifySignature": true, "String": true,
	// queries with value parameters ("…and query one shared value")
	"GetOption": true, "HasOption": true, "CheckOption": true, "Get": true, "GetEntry": true, "FindEntriesByType": true,
	"IntroducerHashString": true, "IntroducerExpirationString": true, "IntroducerTagString": true}

// package-level size lookups
var lookupRoots = map[string][]string{
	"signature":         {"SignatureSize"},
	"key_certificate":   {"GetKeySizes", "GetSigningKeySize", "GetCryptoKeySize", "GetSignatureSize"},
	"offline_signature": {"SigningPublicKeySize", "SignatureSize"},
}

type class int

const (
	cNone class = iota // not a pointer-like value
	cFresh
	cParam
	cReceiver
	cGlobal
	cUnknown
)

func (c class) String() string {
	return [...]string{"fresh", "fresh", "param", "receiver", "global", "unknown"}[c]
}

type org struct {
	c      class
	detail string
}

func join(a, b org) org {
	if b.c > a.c || (b.c == a.c && a.detail == "" && b.detail != "") {
		return b
	}
	return a
}

// porg: origin of a value and of what the object it points to contains
type porg struct{ self, cont org }

type summary struct {
	self map[ssa.Value]org
	cont map[ssa.Value]org // keyed by root value
	rets []porg
	done bool
}

type effects struct {
	prog    *ssa.Program
	inMod   map[string]bool
	modPfx  string
	sums    map[string]*summary
	emitted map[string]bool
	facts   map[[4]string]bool
	fns     map[*ssa.Function]bool
	// function-valued parameters: for each such parameter of a module function, the functions passed at the
	// call sites inside the module — when EVERY site passes a statically known function (a named function, a
	// method expression, a closure), a call through the parameter is a static call to one of them
	fnArgs    map[*ssa.Parameter][]*ssa.Function
	fnArgsAny map[*ssa.Parameter]bool // some site passes a value that is not statically known
}

// funcOf: the function a func-typed value denotes, if it is statically known.
func funcOf(v ssa.Value) *ssa.Function {
	switch x := v.(type) {
	case *ssa.Function:
		return x
	case *ssa.MakeClosure:
		if fn, ok := x.Fn.(*ssa.Function); ok {
			return fn
		}
	case *ssa.ChangeType:
		return funcOf(x.X)
	}
	return nil
}

// unwrapThunk: a synthetic wrapper (method expression thunk, bound-method closure) stands for the method it calls.
func unwrapThunk(fn *ssa.Function) *ssa.Function {
	if fn == nil || fn.Synthetic == "" || len(fn.Blocks) != 1 {
		return fn
	}
	for _, in := range fn.Blocks[0].Instrs {
		if c, ok := in.(ssa.CallInstruction); ok {
			if callee := c.Common().StaticCallee(); callee != nil {
				return callee
			}
		}
	}
	return fn
}

// collectFuncArgs fills fnArgs / fnArgsAny from every call site in the module.
func (e *effects) collectFuncArgs() {
	e.fnArgs, e.fnArgsAny = map[*ssa.Parameter][]*ssa.Function{}, map[*ssa.Parameter]bool{}
	for fn := range ssautil.AllFunctions(e.prog) {
		if !e.isMod(fn) {
			continue
		}
		for _, b := range fn.Blocks {
			for _, in := range b.Instrs {
				ci, ok := in.(ssa.CallInstruction)
				if !ok {
					continue
				}
				common := ci.Common()
				callee := common.StaticCallee()
				if callee == nil || !e.isMod(callee) || common.IsInvoke() {
					continue
				}
				for i, arg := range common.Args {
					if i >= len(callee.Params) {
						break
					}
					if _, isFn := arg.Type().Underlying().(*types.Signature); !isFn {
						continue
					}
					if f := funcOf(arg); f != nil {
						e.fnArgs[callee.Params[i]] = append(e.fnArgs[callee.Params[i]], f)
					} else {
						e.fnArgsAny[callee.Params[i]] = true
					}
				}
			}
		}
	}
}

func pointerLike(t types.Type) bool {
	return pointerLikeD(t, 0)
}

func pointerLikeD(t types.Type, d int) bool {
	if t == nil || d > 6 {
		return t != nil
	}
	switch u := t.Underlying().(type) {
	case *types.Pointer, *types.Slice, *types.Map, *types.Chan, *types.Signature, *types.Interface:
		return true
	case *types.Basic:
		return u.Kind() == types.UnsafePointer
	case *types.Struct:
		for i := 0; i < u.NumFields(); i++ {
			if pointerLikeD(u.Field(i).Type(), d+1) {
				return true
			}
		}
	case *types.Array:
		return pointerLikeD(u.Elem(), d+1)
	case *types.Tuple:
		for i := 0; i < u.Len(); i++ {
			if pointerLikeD(u.At(i).Type(), d+1) {
				return true
			}
		}
	}
	return false
}

// holdsPointers: can the object a value of type t points to (or contains) hold pointer-like data?
func holdsPointers(t types.Type) bool {
	switch u := t.Underlying().(type) {
	case *types.Pointer:
		return pointerLike(u.Elem())
	case *types.Slice:
		return pointerLike(u.Elem())
	case *types.Map:
		return pointerLike(u.Elem()) || pointerLike(u.Key())
	case *types.Interface, *types.Signature, *types.Chan:
		return true
	case *types.Struct, *types.Array:
		return pointerLike(t)
	}
	return false
}

func (e *effects) short(s string) string { return strings.ReplaceAll(s, e.modPfx, "") }

func (e *effects) fnName(f *ssa.Function) string {
	n := e.short(f.RelString(nil))
	return n
}

func (e *effects) isMod(f *ssa.Function) bool {
	if f == nil {
		return false
	}
	if o := f.Origin(); o != nil {
		f = o
	}
	for f.Parent() != nil {
		f = f.Parent()
	}
	return f.Pkg != nil && e.inMod[f.Pkg.Pkg.Path()]
}

func structFieldName(t types.Type, idx int) string {
	if p, ok := t.Underlying().(*types.Pointer); ok {
		t = p.Elem()
	}
	name := "?"
	if n, ok := t.(*types.Named); ok {
		name = n.Obj().Name()
	} else if a, ok := t.(*types.Alias); ok {
		name = a.Obj().Name()
	}
	if st, ok := t.Underlying().(*types.Struct); ok && idx < st.NumFields() {
		return name + "." + st.Field(idx).Name()
	}
	return name + ".?"
}

// rootOf strips address arithmetic: the allocation (or parameter, call, load…) an address is based on.
func rootOf(v ssa.Value) ssa.Value {
	for i := 0; i < 64; i++ {
		switch x := v.(type) {
		case *ssa.FieldAddr:
			v = x.X
		case *ssa.IndexAddr:
			v = x.X
		case *ssa.Slice:
			v = x.X
		case *ssa.Field:
			v = x.X
		case *ssa.Index:
			v = x.X
		case *ssa.ChangeType:
			v = x.X
		case *ssa.MakeInterface:
			v = x.X
		case *ssa.ChangeInterface:
			v = x.X
		case *ssa.SliceToArrayPointer:
			v = x.X
		case *ssa.Convert:
			if _, ok := x.X.Type().Underlying().(*types.Basic); ok {
				return v
			}
			v = x.X
		default:
			return v
		}
	}
	return v
}

func ctxKey(f *ssa.Function, params, free []porg) string {
	var b strings.Builder
	fmt.Fprintf(&b, "%p", f)
	for _, p := range params {
		fmt.Fprintf(&b, "|%d:%s/%d:%s", p.self.c, p.self.detail, p.cont.c, p.cont.detail)
	}
	b.WriteString("#")
	for _, p := range free {
		fmt.Fprintf(&b, "|%d:%s/%d:%s", p.self.c, p.self.detail, p.cont.c, p.cont.detail)
	}
	return b.String()
}

// fa is the analysis of one function under one context.
type fa struct {
	e      *effects
	f      *ssa.Function
	params []porg
	free   []porg
	s      *summary
	dirty  bool
}

func (a *fa) setSelf(v ssa.Value, o org) {
	old := a.s.self[v]
	n := join(old, o)
	if n != old {
		a.s.self[v] = n
		a.dirty = true
	}
}

func (a *fa) addCont(root ssa.Value, o org) {
	if o.c <= cFresh {
		return
	}
	old := a.s.cont[root]
	n := join(old, o)
	if n != old {
		a.s.cont[root] = n
		a.dirty = true
	}
}

// self: origin of the memory v points to
func (a *fa) self(v ssa.Value) org {
	switch x := v.(type) {
	case *ssa.Const, *ssa.Function, *ssa.Builtin:
		return org{}
	case *ssa.Global:
		return org{cGlobal, a.e.short(x.RelString(nil))}
	}
	return a.s.self[v]
}

// contents: the most shared thing that can be loaded from the object v points to
func (a *fa) contents(v ssa.Value) org {
	o := a.self(v)
	if o.c > cFresh {
		return o // shared memory contains shared things
	}
	return a.rootCont(rootOf(v), 0)
}

func (a *fa) rootCont(r ssa.Value, depth int) org {
	o := a.s.cont[r]
	if depth > 8 {
		return o
	}
	switch x := r.(type) {
	case *ssa.Phi:
		for _, ed := range x.Edges {
			o = join(o, a.valCont(ed, depth+1))
		}
	case *ssa.UnOp:
		if x.Op == token.MUL { // a struct/pointer loaded from fresh memory: what that memory holds
			o = join(o, a.valCont(x.X, depth+1))
		}
	case *ssa.Extract:
		o = join(o, a.s.cont[x])
	case *ssa.TypeAssert:
		o = join(o, a.valCont(x.X, depth+1))
	}
	return o
}

func (a *fa) valCont(v ssa.Value, depth int) org {
	o := a.self(v)
	if o.c > cFresh {
		return o
	}
	return a.rootCont(rootOf(v), depth)
}

// whole: self joined with contents (what a callee/store target may reach through v)
func (a *fa) whole(v ssa.Value) porg {
	if !pointerLike(v.Type()) {
		return porg{}
	}
	s := a.self(v)
	if s.c == cNone {
		s.c = cFresh
	}
	return porg{s, join(s, a.contents(v))}
}

func (a *fa) worst(v ssa.Value) org {
	w := a.whole(v)
	return join(w.self, w.cont)
}

func (e *effects) summarize(f *ssa.Function, params, free []porg) *summary {
	key := ctxKey(f, params, free)
	if s, ok := e.sums[key]; ok {
		return s
	}
	s := &summary{self: map[ssa.Value]org{}, cont: map[ssa.Value]org{}}
	nres := f.Signature.Results().Len()
	s.rets = make([]porg, nres)
	for i := range s.rets { // provisional (recursion): unknown
		if pointerLike(f.Signature.Results().At(i).Type()) {
			s.rets[i] = porg{org{cUnknown, "recursion"}, org{cUnknown, "recursion"}}
		}
	}
	e.sums[key] = s
	e.fns[f] = true
	a := &fa{e: e, f: f, params: params, free: free, s: s}
	for i, p := range f.Params {
		if i < len(params) {
			s.self[p] = params[i].self
			if params[i].cont.c > cFresh {
				s.cont[p] = params[i].cont
			}
		}
	}
	for i, p := range f.FreeVars {
		if i < len(free) {
			s.self[p] = free[i].self
			if free[i].cont.c > cFresh {
				s.cont[p] = free[i].cont
			}
		}
	}
	rets := make([]porg, nres)
	for round := 0; round < 50; round++ {
		a.dirty = false
		for _, b := range f.Blocks {
			for _, in := range b.Instrs {
				a.transfer(in, rets)
			}
		}
		if !a.dirty {
			break
		}
	}
	s.rets = rets
	s.done = true
	return s
}

func (a *fa) calleeCtx(common *ssa.CallCommon, callee *ssa.Function) []porg {
	var ps []porg
	for _, arg := range common.Args {
		ps = append(ps, a.whole(arg))
	}
	_ = callee
	return ps
}

// callRets: origins of the results of a call
func (a *fa) callRets(v ssa.Value, common *ssa.CallCommon) []porg {
	nres := 1
	if t, ok := v.Type().(*types.Tuple); ok {
		nres = t.Len()
	}
	out := make([]porg, nres)
	if b, ok := common.Value.(*ssa.Builtin); ok {
		if b.Name() == "append" && len(common.Args) >= 1 {
			w := a.whole(common.Args[0])
			if w.self.c == cNone {
				w.self.c = cFresh
			}
			c := w.cont
			if len(common.Args) == 2 && holdsPointers(common.Args[0].Type()) {
				c = join(c, a.worst(common.Args[1]))
			}
			out[0] = porg{w.self, c}
		}
		return out
	}
	if callee := common.StaticCallee(); callee != nil && a.e.isMod(callee) && len(callee.Blocks) > 0 {
		var free []porg
		if mc, ok := common.Value.(*ssa.MakeClosure); ok {
			for _, bnd := range mc.Bindings {
				free = append(free, a.whole(bnd))
			}
		}
		s := a.e.summarize(callee, a.calleeCtx(common, callee), free)
		for i := range out {
			if i < len(s.rets) {
				out[i] = s.rets[i]
			}
		}
		return out
	}
	// external, interface or dynamic call: a result may alias any pointer-like argument
	w := org{cFresh, ""}
	if common.IsInvoke() {
		w = join(w, a.worst(common.Value))
	}
	for _, arg := range common.Args {
		w = join(w, a.worst(arg))
	}
	for i := range out {
		out[i] = porg{w, w}
	}
	return out
}

func resultType(v ssa.Value, i int) types.Type {
	if t, ok := v.Type().(*types.Tuple); ok {
		if i < t.Len() {
			return t.At(i).Type()
		}
		return nil
	}
	return v.Type()
}

func (a *fa) transfer(in ssa.Instruction, rets []porg) {
	switch x := in.(type) {
	case *ssa.Alloc:
		a.setSelf(x, org{cFresh, ""})
	case *ssa.MakeSlice, *ssa.MakeMap, *ssa.MakeChan:
		a.setSelf(x.(ssa.Value), org{cFresh, ""})
	case *ssa.MakeClosure:
		a.setSelf(x, org{cFresh, ""})
		for _, b := range x.Bindings {
			a.addCont(x, a.worst(b))
		}
	case *ssa.MakeInterface:
		if pointerLike(x.X.Type()) {
			a.setSelf(x, a.whole(x.X).self)
		}
	case *ssa.FieldAddr:
		o := a.self(x.X)
		if o.c > cFresh {
			o.detail = structFieldName(x.X.Type(), x.Field)
		}
		a.setSelf(x, o)
	case *ssa.Field:
		if pointerLike(x.Type()) {
			o := a.self(x.X)
			if o.c > cFresh {
				o.detail = structFieldName(x.X.Type(), x.Field)
			} else {
				o = join(o, a.contents(x.X))
			}
			a.setSelf(x, o)
		}
	case *ssa.IndexAddr:
		a.setSelf(x, a.self(x.X))
	case *ssa.Index:
		if pointerLike(x.Type()) {
			a.setSelf(x, join(a.self(x.X), a.contents(x.X)))
		}
	case *ssa.Slice:
		if pointerLike(x.Type()) {
			a.setSelf(x, a.self(x.X))
		}
	case *ssa.Lookup:
		if pointerLike(x.Type()) {
			a.setSelf(x, join(org{cFresh, ""}, a.contents(x.X)))
		}
	case *ssa.Range:
		a.setSelf(x, a.self(x.X))
		a.addCont(x, a.contents(x.X))
	case *ssa.Next:
		if pointerLike(x.Type()) {
			a.setSelf(x, join(org{cFresh, ""}, a.contents(x.Iter)))
			a.addCont(x, a.contents(x.Iter))
		}
	case *ssa.Select:
		a.setSelf(x, org{cUnknown, "select"})
	case *ssa.UnOp:
		if !pointerLike(x.Type()) {
			return
		}
		switch x.Op {
		case token.MUL:
			// the loaded value points wherever the things stored in that object point
			o := a.contents(x.X)
			if o.c == cNone {
				o.c = cFresh
			}
			a.setSelf(x, o)
		case token.ARROW:
			a.setSelf(x, org{cUnknown, "chan receive"})
		default:
			a.setSelf(x, a.self(x.X))
		}
	case *ssa.Phi:
		for _, ed := range x.Edges {
			a.setSelf(x, a.self(ed))
		}
	case *ssa.ChangeType:
		a.setSelf(x, a.self(x.X))
	case *ssa.ChangeInterface:
		a.setSelf(x, a.self(x.X))
	case *ssa.SliceToArrayPointer:
		a.setSelf(x, a.self(x.X))
	case *ssa.Convert:
		if pointerLike(x.Type()) {
			if pointerLike(x.X.Type()) {
				a.setSelf(x, a.self(x.X)) // unsafe.Pointer round trips keep their origin
			} else {
				a.setSelf(x, org{cFresh, ""}) // string → []byte / []rune allocates
			}
		}
	case *ssa.MultiConvert:
		a.setSelf(x, join(org{cFresh, ""}, a.self(x.X)))
	case *ssa.TypeAssert:
		if pointerLike(resultType(x, 0)) {
			a.setSelf(x, a.self(x.X))
		}
	case *ssa.Extract:
		if !pointerLike(x.Type()) {
			return
		}
		switch t := x.Tuple.(type) {
		case *ssa.Call:
			rs := a.callRets(t, &t.Call)
			if x.Index < len(rs) {
				a.setSelf(x, join(org{cFresh, ""}, rs[x.Index].self))
				a.addCont(x, rs[x.Index].cont)
			}
		default:
			a.setSelf(x, join(org{cFresh, ""}, a.self(t)))
			a.addCont(x, a.rootCont(t, 0))
		}
	case *ssa.Call:
		rs := a.callRets(x, &x.Call)
		if _, isTuple := x.Type().(*types.Tuple); !isTuple && pointerLike(x.Type()) {
			a.setSelf(x, join(org{cFresh, ""}, rs[0].self))
			a.addCont(x, rs[0].cont)
		}
		a.callFlows(&x.Call)
	case *ssa.Defer:
		a.callFlows(&x.Call)
	case *ssa.Go:
		a.callFlows(&x.Call)
	case *ssa.Store:
		if pointerLike(x.Val.Type()) {
			if t := a.self(x.Addr); t.c <= cFresh {
				a.addCont(rootOf(x.Addr), a.worst(x.Val))
			}
		}
	case *ssa.MapUpdate:
		if t := a.self(x.Map); t.c <= cFresh {
			if pointerLike(x.Value.Type()) {
				a.addCont(rootOf(x.Map), a.worst(x.Value))
			}
			if pointerLike(x.Key.Type()) {
				a.addCont(rootOf(x.Map), a.worst(x.Key))
			}
		}
	case *ssa.Return:
		for i, r := range x.Results {
			if i < len(rets) && pointerLike(r.Type()) {
				w := a.whole(r)
				n := porg{join(rets[i].self, w.self), join(rets[i].cont, w.cont)}
				if n != rets[i] {
					rets[i] = n
					a.dirty = true
				}
			}
		}
	}
}

// callFlows: a callee may store any pointer-like argument into any object another argument points to
func (a *fa) callFlows(common *ssa.CallCommon) {
	if b, ok := common.Value.(*ssa.Builtin); ok {
		if b.Name() == "copy" && len(common.Args) == 2 && holdsPointers(common.Args[0].Type()) {
			if t := a.self(common.Args[0]); t.c <= cFresh {
				a.addCont(rootOf(common.Args[0]), a.contents(common.Args[1]))
			}
		}
		return
	}
	args := append([]ssa.Value{}, common.Args...)
	if common.IsInvoke() {
		args = append(args, common.Value)
	}
	for i, dst := range args {
		if !pointerLike(dst.Type()) || !holdsPointers(dst.Type()) {
			continue
		}
		if t := a.self(dst); t.c > cFresh {
			continue
		}
		for j, src := range args {
			if i != j && pointerLike(src.Type()) {
				a.addCont(rootOf(dst), a.worst(src))
			}
		}
	}
}

// ---- emission -----------------------------------------------------------------------------------

func (e *effects) fact(f *ssa.Function, kind string, o org, detail string) {
	c := o.c
	if detail == "" && c > cFresh {
		detail = o.detail
	}
	e.facts[[4]string{e.fnName(f), kind, c.String(), detail}] = true
}

func calleeName(e *effects, common *ssa.CallCommon) string {
	if common.IsInvoke() {
		recv := common.Value.Type()
		return e.short(types.TypeString(recv, nil)) + "." + common.Method.Name()
	}
	if c := common.StaticCallee(); c != nil {
		return e.short(c.RelString(nil))
	}
	return "(func value)"
}

func isSortCall(name string) bool {
	return strings.HasPrefix(name, "sort.") && !strings.Contains(name, "Search") && !strings.Contains(name, "AreSorted") && !strings.Contains(name, "IsSorted") ||
		strings.HasPrefix(name, "slices.Sort") || strings.HasPrefix(name, "slices.Reverse") || strings.HasPrefix(name, "slices.Stable")
}

func (e *effects) emit(f *ssa.Function, params, free []porg) {
	key := ctxKey(f, params, free)
	if e.emitted[key] {
		return
	}
	e.emitted[key] = true
	s := e.summarize(f, params, free)
	a := &fa{e: e, f: f, params: params, free: free, s: s}
	for _, b := range f.Blocks {
		for _, in := range b.Instrs {
			switch x := in.(type) {
			case *ssa.Store:
				o := a.self(x.Addr)
				if o.c <= cFresh {
					if _, local := rootOf(x.Addr).(*ssa.Alloc); local {
						continue // a local variable or an object allocated by this very function
					}
					o = org{cFresh, ""}
				}
				e.fact(f, "Store", o, "")
			case *ssa.MapUpdate:
				o := a.self(x.Map)
				if o.c <= cFresh {
					if _, local := rootOf(x.Map).(*ssa.MakeMap); local {
						continue // per-call field maps of the logger
					}
					o = org{cFresh, ""}
				}
				e.fact(f, "MapUpdate", o, "")
			case *ssa.Send:
				e.fact(f, "Send", org{cUnknown, ""}, "")
			case *ssa.Go:
				e.fact(f, "Go", org{cUnknown, ""}, calleeName(e, &x.Call))
				e.emitCall(a, f, &x.Call)
			case *ssa.Defer:
				e.emitCall(a, f, &x.Call)
			case *ssa.Call:
				e.emitCall(a, f, &x.Call)
			case *ssa.MakeClosure:
				// the closure body runs with whatever its captures point to; its own parameters are unknown
				fn := x.Fn.(*ssa.Function)
				if !closureEscapes(x) {
					continue // only ever called directly: analysed at its call sites with real argument origins
				}
				var fr []porg
				for _, bnd := range x.Bindings {
					fr = append(fr, a.whole(bnd))
				}
				var ps []porg
				for _, p := range fn.Params {
					if pointerLike(p.Type()) {
						ps = append(ps, porg{org{cUnknown, "closure parameter"}, org{cUnknown, "closure parameter"}})
					} else {
						ps = append(ps, porg{})
					}
				}
				e.emit(fn, ps, fr)
			}
		}
	}
}

// closureEscapes: is the closure used other than as the callee of direct calls?
func closureEscapes(mc *ssa.MakeClosure) bool {
	refs := mc.Referrers()
	if refs == nil {
		return true
	}
	for _, r := range *refs {
		ci, ok := r.(ssa.CallInstruction)
		if !ok || ci.Common().Value != ssa.Value(mc) {
			return true
		}
		for _, arg := range ci.Common().Args {
			if arg == ssa.Value(mc) {
				return true
			}
		}
	}
	return false
}

func (e *effects) emitCall(a *fa, f *ssa.Function, common *ssa.CallCommon) {
	if b, ok := common.Value.(*ssa.Builtin); ok {
		switch b.Name() {
		case "append":
			o := a.self(common.Args[0])
			if o.c <= cFresh {
				o = org{cFresh, ""}
			}
			e.fact(f, "append", o, "")
		case "copy":
			o := a.self(common.Args[0])
			if o.c <= cFresh {
				o = org{cFresh, ""}
			}
			e.fact(f, "copy", o, "")
		case "delete":
			o := a.self(common.Args[0])
			if o.c <= cFresh {
				o = org{cFresh, ""}
			}
			e.fact(f, "MapUpdate", o, "")
		case "clear":
			o := a.self(common.Args[0])
			if o.c <= cFresh {
				o = org{cFresh, ""}
			}
			e.fact(f, "Store", o, "")
		}
		return
	}
	name := calleeName(e, common)
	callee := common.StaticCallee()
	if callee != nil && e.isMod(callee) && len(callee.Blocks) > 0 {
		var free []porg
		if mc, ok := common.Value.(*ssa.MakeClosure); ok {
			for _, bnd := range mc.Bindings {
				free = append(free, a.whole(bnd))
			}
		}
		e.emit(callee, a.calleeCtx(common, callee), free)
		return
	}
	pkgPath := ""
	switch {
	case common.IsInvoke():
		pkgPath = "error" // the universe interface; named interfaces: their package
		if n, ok := common.Value.Type().(*types.Named); ok && n.Obj().Pkg() != nil {
			pkgPath = n.Obj().Pkg().Path()
		} else if common.Method.Pkg() != nil {
			pkgPath = common.Method.Pkg().Path()
		}
	case callee != nil:
		if o := callee.Origin(); o != nil && o.Pkg != nil {
			pkgPath = o.Pkg.Pkg.Path()
		} else if callee.Pkg != nil {
			pkgPath = callee.Pkg.Pkg.Path()
		} else if callee.Object() != nil && callee.Object().Pkg() != nil {
			pkgPath = callee.Object().Pkg().Path()
		}
	default:
		ld, ok := common.Value.(*ssa.UnOp)
		g, ok2 := (ssa.Value)(nil), false
		if ok && ld.Op == token.MUL {
			g, ok2 = ld.X.(*ssa.Global)
		}
		if prm, isParam := common.Value.(*ssa.Parameter); isParam && !ok2 && !e.fnArgsAny[prm] && len(e.fnArgs[prm]) > 0 && prm.Parent() != nil && !prm.Parent().Object().Exported() {
			// a call through a function-valued parameter of an UNEXPORTED function all of whose call sites pass
			// statically known functions: a static call to each of them
			done := map[*ssa.Function]bool{}
			for _, target := range e.fnArgs[prm] {
				real := unwrapThunk(target)
				if done[real] {
					continue
				}
				done[real] = true
				if e.isMod(real) && len(real.Blocks) > 0 {
					e.emit(real, a.calleeCtx(common, real), nil)
					continue
				}
				tp := ""
				if real.Pkg != nil {
					tp = real.Pkg.Pkg.Path()
				} else if real.Object() != nil && real.Object().Pkg() != nil {
					tp = real.Object().Pkg().Path()
				}
				if tp == "" {
					e.fact(f, "dynamic-call", org{cUnknown, ""}, name)
					continue
				}
				w := org{cFresh, ""}
				for _, arg := range common.Args {
					w = join(w, a.worst(arg))
				}
				if idx, ok := extWriteArg(tp, real.String(), common); ok && idx < len(common.Args) {
					e.fact(f, "extwrite", a.self(common.Args[idx]), real.String())
				} else if w.c > cFresh {
					e.facts[[4]string{e.fnName(f) + " -> " + real.String(), "external-call", w.c.String(), pkgGroup(tp)}] = true
				}
			}
			return
		}
		if !ok2 || g.(*ssa.Global).Pkg == nil || e.inMod[g.(*ssa.Global).Pkg.Pkg.Path()] {
			e.fact(f, "dynamic-call", org{cUnknown, ""}, name)
			return
		}
		// e.g. `types.SHA256` (a func variable of go-i2p/crypto): an external call by name
		pkgPath = g.(*ssa.Global).Pkg.Pkg.Path()
		name = g.(*ssa.Global).RelString(nil) + " (func variable)"
	}
	args := append([]ssa.Value{}, common.Args...)
	if common.IsInvoke() {
		args = append([]ssa.Value{common.Value}, args...) // receiver first, as for static method calls
	}
	if !common.IsInvoke() && isSortCall(name) && len(args) >= 1 {
		o := a.self(args[0])
		if o.c <= cFresh {
			o = org{cFresh, ""}
		}
		e.fact(f, "sort", o, name)
		return
	}
	// functions known to write through one of their arguments (a table of facts, like `copy` and `sort`)
	if idx, ok := extWriteArg(pkgPath, name, common); ok && idx < len(args) {
		o := a.self(args[idx])
		if o.c <= cFresh {
			o = org{cFresh, ""}
		}
		e.fact(f, "extwrite", o, name)
		return
	}
	// any other external (static or interface) call: recorded when it is handed memory the call did not
	// allocate — caller and callee in the first column, the callee's package group as detail
	w := org{cFresh, ""}
	for _, arg := range args {
		w = join(w, a.worst(arg))
	}
	if common.IsInvoke() {
		// in-module implementations of the interface, if any, are walked as well
		for _, impl := range e.implementations(common) {
			var ps []porg
			for _, arg := range args {
				ps = append(ps, a.whole(arg))
			}
			e.emit(impl, ps, nil)
		}
	}
	if w.c > cFresh || common.IsInvoke() { // interface calls always leave the module: always recorded
		if w.c == cUnknown && os.Getenv("EFFECTS_DEBUG") != "" {
			fmt.Fprintf(os.Stderr, "unknown arg: %s calls %s (%s) params=%v\n", e.fnName(f), name, w.detail, a.params)
		}
		grp := pkgGroup(pkgPath)
		callee := name
		if grp == "github.com/go-i2p/logger" || grp == "github.com/sirupsen/logrus" {
			callee = grp // the logging stack is recorded per package, not per method
		}
		e.facts[[4]string{e.fnName(f) + " -> " + callee, "external-call", w.c.String(), grp}] = true
	}
}

// pkgGroup: the module-ish group of an external package — host/org/repo for hosted modules, "std:<first
// path element>" for the standard library, "error" for the universe interface.
func pkgGroup(path string) string {
	if path == "error" || path == "" {
		return path
	}
	parts := strings.Split(path, "/")
	if strings.Contains(parts[0], ".") {
		if len(parts) > 3 {
			parts = parts[:3]
		}
		return strings.Join(parts, "/")
	}
	return "std:" + parts[0]
}

// extWriteArg: index (receiver first) of the argument an external function is KNOWN to write through.
// This is a table of library facts in the same spirit as the builtin `copy`/`append` and `sort.*`; calls not
// listed here are reported as plain external calls and judged by package group on the Lean side.
func extWriteArg(pkg, name string, common *ssa.CallCommon) (int, bool) {
	base := name
	if i := strings.LastIndex(base, "."); i >= 0 {
		base = base[i+1:]
	}
	has := func(prefixes ...string) bool {
		for _, p := range prefixes {
			if strings.HasPrefix(base, p) {
				return true
			}
		}
		return false
	}
	method := common.IsInvoke() || (common.StaticCallee() != nil && common.StaticCallee().Signature.Recv() != nil)
	switch pkg {
	case "encoding/binary":
		if has("PutUint", "AppendUint") && method {
			return 1, true // (order).PutUint32(b, v)
		}
		if has("PutUvarint", "PutVarint", "AppendUvarint", "AppendVarint", "Encode", "Append") {
			return 0, true
		}
		if base == "Read" || base == "Decode" {
			return 2, base == "Read"
		}
	case "io":
		if base == "ReadFull" || base == "ReadAtLeast" {
			return 1, true
		}
		if method && base == "Read" { // io.Reader.Read(p)
			return 1, true
		}
		if method && has("Write") { // io.Writer: mutates the writer
			return 0, true
		}
	case "crypto/rand", "math/rand", "math/rand/v2":
		if base == "Read" {
			if method {
				return 1, true
			}
			return 0, true
		}
	case "encoding/hex":
		if base == "Encode" || base == "Decode" || has("AppendEncode", "AppendDecode") {
			return 0, true
		}
	case "encoding/base32", "encoding/base64":
		if method && (base == "Encode" || base == "Decode" || has("AppendEncode", "AppendDecode")) {
			return 1, true
		}
	case "crypto/subtle":
		if base == "ConstantTimeCopy" {
			return 1, true
		}
		if base == "XORBytes" {
			return 0, true
		}
	case "strconv":
		if has("Append") {
			return 0, true
		}
	case "unicode/utf8":
		if base == "EncodeRune" || base == "AppendRune" {
			return 0, true
		}
	case "sync/atomic":
		if !has("Load") {
			return 0, true
		}
	case "sync":
		return 0, true // Mutex/RWMutex/Once/WaitGroup/Map/Pool: every method mutates its receiver
	case "slices":
		if has("Insert", "Delete", "Replace", "Compact", "Grow") {
			return 0, true
		}
	case "maps":
		if base == "Copy" || base == "DeleteFunc" || base == "Insert" {
			return 0, true
		}
	case "bytes", "strings", "bufio":
		if method && has("Write", "Read", "Reset", "Truncate", "Grow", "Unread", "Next", "Discard", "Flush") {
			return 0, true // (*bytes.Buffer), (*strings.Builder), (*bytes.Reader), bufio readers/writers
		}
	case "hash":
		if method && (base == "Write" || base == "Reset") {
			return 0, true
		}
		if method && base == "Sum" { // appends to its argument
			return 1, true
		}
	case "math/big":
		if method && has("Set", "Add", "Sub", "Mul", "Div", "Mod", "Quo", "Rem", "Exp", "Neg", "Abs", "Lsh", "Rsh", "And", "Or", "Xor", "Not", "GCD", "Sqrt", "FillBytes", "Rand", "Scan", "UnmarshalText", "UnmarshalJSON", "GobDecode") {
			if base == "FillBytes" {
				return 1, true
			}
			return 0, true // z.Op(x, y): the receiver is the destination
		}
	}
	return 0, false
}

// implementations: in-module concrete methods an interface call may dispatch to (class-hierarchy style)
func (e *effects) implementations(common *ssa.CallCommon) []*ssa.Function {
	iface, ok := common.Value.Type().Underlying().(*types.Interface)
	if !ok {
		return nil
	}
	var out []*ssa.Function
	for _, p := range e.prog.AllPackages() {
		if !e.inMod[p.Pkg.Path()] {
			continue
		}
		names := make([]string, 0, len(p.Members))
		for n := range p.Members {
			names = append(names, n)
		}
		sort.Strings(names)
		for _, n := range names {
			t, ok := p.Members[n].(*ssa.Type)
			if !ok {
				continue
			}
			if _, isIface := t.Type().Underlying().(*types.Interface); isIface {
				continue
			}
			for _, recv := range []types.Type{t.Type(), types.NewPointer(t.Type())} {
				if !types.Implements(recv, iface) {
					continue
				}
				sel := e.prog.MethodSets.MethodSet(recv).Lookup(common.Method.Pkg(), common.Method.Name())
				if sel == nil {
					continue
				}
				if fn := e.prog.MethodValue(sel); fn != nil && len(fn.Blocks) > 0 {
					out = append(out, fn)
				}
				break
			}
		}
	}
	return out
}

// ---- driver -------------------------------------------------------------------------------------

var genEffects = func(pkgs []*packages.Package) (content string, ok bool) {
	header := "/-! GENERATED by /verif/extract (effects.go) from /repo on every run — do not edit.\n" +
		"    SSA effect facts of the read-only API: (function, kind, origin, detail); `roots` are the API entry\n" +
		"    points walked, `analysed` the number of distinct function bodies reached inside the module. -/\n" +
		"namespace I2P.Gen.Effects\n\n"
	render := func(roots []string, analysed int, rows [][4]string) string {
		var b strings.Builder
		b.WriteString(header)
		b.WriteString("def roots : List String := [\n")
		for i, r := range roots {
			sep := ","
			if i == len(roots)-1 {
				sep = ""
			}
			fmt.Fprintf(&b, "  %s%s\n", leanStr(r), sep)
		}
		b.WriteString("]\n\n")
		fmt.Fprintf(&b, "def analysed : Nat := %d\n\n", analysed)
		b.WriteString("def facts : List (String × String × String × String) := [\n")
		for i, r := range rows {
			sep := ","
			if i == len(rows)-1 {
				sep = ""
			}
			fmt.Fprintf(&b, "  (%s, %s, %s, %s)%s\n", leanStr(r[0]), leanStr(r[1]), leanStr(r[2]), leanStr(r[3]), sep)
		}
		b.WriteString("]\n\nend I2P.Gen.Effects\n")
		return b.String()
	}
	defer func() {
		if r := recover(); r != nil {
			// never guess: a failed extraction is a fact no allowed set contains
			content = render(nil, 0, [][4]string{{"", "EXTRACTOR-FAILED", "unknown", fmt.Sprint(r)}})
			ok = true
		}
	}()
	prog, ssaPkgs := ssautil.Packages(pkgs, ssa.InstantiateGenerics)
	prog.Build()
	e := &effects{prog: prog, inMod: map[string]bool{}, sums: map[string]*summary{}, emitted: map[string]bool{},
		facts: map[[4]string]bool{}, fns: map[*ssa.Function]bool{}}
	for _, p := range pkgs {
		e.inMod[p.PkgPath] = true
	}
	e.collectFuncArgs()
	// common module prefix (github.com/go-i2p/common/)
	for _, p := range pkgs {
		if i := strings.LastIndex(p.PkgPath, "/"); i >= 0 {
			pfx := p.PkgPath[:i+1]
			if e.modPfx == "" || len(pfx) < len(e.modPfx) {
				e.modPfx = pfx
			}
		}
	}
	var roots []string
	for _, sp := range ssaPkgs {
		if sp == nil {
			continue
		}
		names := make([]string, 0, len(sp.Members))
		for n := range sp.Members {
			names = append(names, n)
		}
		sort.Strings(names)
		for _, n := range names {
			switch m := sp.Members[n].(type) {
			case *ssa.Function:
				for _, want := range lookupRoots[sp.Pkg.Name()] {
					if want == n {
						var ps []porg
						for _, p := range m.Params {
							if pointerLike(p.Type()) {
								ps = append(ps, porg{org{cParam, p.Name()}, org{cParam, p.Name()}})
							} else {
								ps = append(ps, porg{})
							}
						}
						roots = append(roots, e.fnName(m))
						e.emit(m, ps, nil)
					}
				}
			case *ssa.Type:
				if !m.Object().Exported() || strings.HasSuffix(n, "Builder") {
					continue
				}
				if _, isIface := m.Type().Underlying().(*types.Interface); isIface {
					continue
				}
				ms := prog.MethodSets.MethodSet(types.NewPointer(m.Type()))
				for i := 0; i < ms.Len(); i++ {
					sel := ms.At(i)
					fo := sel.Obj().(*types.Func)
					if !fo.Exported() {
						continue
					}
					sig := fo.Type().(*types.Signature)
					if sig.Params().Len() > 0 && !roVerbs[fo.Name()] {
						continue
					}
					fn := prog.MethodValue(sel)
					if fn == nil || len(fn.Blocks) == 0 {
						continue
					}
					var ps []porg
					for pi, p := range fn.Params {
						switch {
						case pi == 0:
							ps = append(ps, porg{org{cReceiver, n}, org{cReceiver, n}})
						case pointerLike(p.Type()):
							ps = append(ps, porg{org{cParam, p.Name()}, org{cParam, p.Name()}})
						default:
							ps = append(ps, porg{})
						}
					}
					roots = append(roots, e.fnName(fn))
					e.emit(fn, ps, nil)
				}
			}
		}
	}
	var rows [][4]string
	for f := range e.facts {
		rows = append(rows, f)
	}
	sort.Slice(rows, func(i, j int) bool {
		for k := 0; k < 4; k++ {
			if rows[i][k] != rows[j][k] {
				return rows[i][k] < rows[j][k]
			}
		}
		return false
	})
	sort.Strings(roots)
	return render(roots, len(e.fns), rows), true
}
