package main

import "golang.org/x/tools/go/packages"

// genEffects is implemented in ssa.go once the SSA-based effect extraction exists.
var genEffects = func(pkgs []*packages.Package) (string, bool) { return "", false }
